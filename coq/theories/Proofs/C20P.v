(* C20: the TRANSLATED validators accept exactly the documented domains. *)
From Coq Require Import QArith List String Bool Lqa Lia ZArith.
From MdpaxGen Require Import GenValidators GenThreshold.
Import ListNotations.
Open Scope Q_scope.

Lemma Qle_bool_false a b : Qle_bool a b = false <-> b < a.
Proof.
  split; intros H.
  - apply Qnot_le_lt. intros C. apply Qle_bool_iff in C. congruence.
  - destruct (Qle_bool a b) eqn:E; [|reflexivity]. apply Qle_bool_iff in E. lra.
Qed.
Lemma Qeq_bool_false a b : Qeq_bool a b = false <-> ~ a == b.
Proof.
  split; intros H.
  - intros C. apply Qeq_eq_bool in C. congruence.
  - destruct (Qeq_bool a b) eqn:E; [|reflexivity]. apply Qeq_bool_eq in E. contradiction.
Qed.

(* turn every boolean atom of a validator into the corresponding proposition, case by case *)
Ltac split_atoms :=
  repeat match goal with
  | |- context [Qle_bool ?a ?b] => let E := fresh "E" in destruct (Qle_bool a b) eqn:E;
        [apply Qle_bool_iff in E | apply Qle_bool_false in E]
  | |- context [Qeq_bool ?a ?b] => let E := fresh "E" in destruct (Qeq_bool a b) eqn:E;
        [apply Qeq_bool_eq in E | apply Qeq_bool_false in E]
  | |- context [String.eqb ?a ?b] => let E := fresh "E" in destruct (String.eqb a b) eqn:E;
        [apply String.eqb_eq in E | apply String.eqb_neq in E]
  end.
Ltac finish := simpl; split; intros; try discriminate; try reflexivity;
  repeat match goal with H : _ /\ _ |- _ => destruct H end;
  repeat match goal with H : _ \/ _ |- _ => destruct H end;
  try solve [exfalso; lra]; try solve [exfalso; congruence]; try solve [intuition (try lra; try congruence)].

Definition in_strings (x : string) (l : list string) : Prop := List.In x l.

(* ---------- solver configurations *)
Definition common_domain (gamma eps mbs freq mc verbose : Q) : Prop :=
  0 <= gamma <= 1 /\ 0 < eps /\ 0 < mbs /\ 0 <= freq /\ 0 <= mc /\ 0 <= verbose <= 4.

Definition vi_domain (c : vi_cfg) : Prop :=
  vi_problem c <> POtherObject /\
  common_domain (vi_gamma c) (vi_epsilon c) (vi_max_batch_size c) (vi_checkpoint_frequency c) (vi_max_checkpoints c) (vi_verbose c) /\
  (vi_convergence_test c = "span"%string \/ vi_convergence_test c = "max_diff"%string).
Lemma validate_vi_iff c : validate_vi c = None <-> vi_domain c.
Proof.
  unfold validate_vi, vi_domain, common_domain, Qltb'. destruct (vi_problem c); simpl; split_atoms; finish.
Qed.
Lemma validate_vi_error_class c e : validate_vi c = Some e -> e = VValueError \/ e = VTypeError.
Proof.
  unfold validate_vi.
  repeat match goal with |- context [if ?b then _ else _] => destruct b end; intros H; inversion H; auto.
Qed.

Definition savi_domain (c : savi_cfg) : Prop :=
  savi_problem c <> POtherObject /\
  common_domain (savi_gamma c) (savi_epsilon c) (savi_max_batch_size c) (savi_checkpoint_frequency c) (savi_max_checkpoints c) (savi_verbose c) /\
  (savi_convergence_test c = "span"%string \/ savi_convergence_test c = "max_diff"%string).
Lemma validate_savi_iff c : validate_savi c = None <-> savi_domain c.
Proof.
  unfold validate_savi, savi_domain, common_domain, Qltb'. destruct (savi_problem c); simpl; split_atoms; finish.
Qed.

Definition pi_domain (c : pi_cfg) : Prop :=
  pi_problem c <> POtherObject /\
  common_domain (pi_gamma c) (pi_epsilon c) (pi_max_batch_size c) (pi_checkpoint_frequency c) (pi_max_checkpoints c) (pi_verbose c) /\
  0 < pi_max_eval_iter c /\
  (pi_convergence_test c = "span"%string \/ pi_convergence_test c = "max_diff"%string).
Lemma validate_pi_iff c : validate_pi c = None <-> pi_domain c.
Proof.
  unfold validate_pi, pi_domain, common_domain, Qltb'. destruct (pi_problem c); simpl; split_atoms; finish.
Qed.

Definition rvi_domain (c : rvi_cfg) : Prop :=
  rvi_problem c <> POtherObject /\ rvi_gamma c == 1 /\ 0 < rvi_epsilon c /\ 0 < rvi_max_batch_size c /\
  0 <= rvi_checkpoint_frequency c /\ 0 <= rvi_max_checkpoints c /\ 0 <= rvi_verbose c <= 4.
Lemma validate_rvi_iff c : validate_rvi c = None <-> rvi_domain c.
Proof.
  unfold validate_rvi, rvi_domain, Qltb'. destruct (rvi_problem c); simpl; split_atoms; finish.
Qed.

Definition pvi_domain (c : pvi_cfg) : Prop :=
  pvi_problem c <> POtherObject /\ 0 < pvi_period c /\ (pvi_gamma c == 1 -> 2 <= pvi_period c) /\
  common_domain (pvi_gamma c) (pvi_epsilon c) (pvi_max_batch_size c) (pvi_checkpoint_frequency c) (pvi_max_checkpoints c) (pvi_verbose c).
Lemma validate_pvi_iff c : validate_pvi c = None <-> pvi_domain c.
Proof.
  unfold validate_pvi, pvi_domain, common_domain, Qltb'. destruct (pvi_problem c); simpl; split_atoms; finish.
Qed.

(* ---------- problem configurations *)
Definition forest_domain (c : forest_cfg) : Prop := 0 < forest_S c /\ 0 <= forest_p c <= 1.
Lemma validate_forest_iff c : validate_forest c = None <-> forest_domain c.
Proof. unfold validate_forest, forest_domain, Qltb'. split_atoms; finish. Qed.

Definition demoor_domain (c : demoor_cfg) : Prop :=
  0 < demoor_max_demand c /\ 0 < demoor_demand_gamma_mean c /\ 0 < demoor_demand_gamma_cov c /\
  1 <= demoor_max_useful_life c /\ 1 <= demoor_lead_time c /\ 0 < demoor_max_order_quantity c /\
  (demoor_issue_policy c = "fifo"%string \/ demoor_issue_policy c = "lifo"%string).
Lemma validate_demoor_iff c : validate_demoor c = None <-> demoor_domain c.
Proof. unfold validate_demoor, demoor_domain, Qltb'. simpl. split_atoms; finish. Qed.

Definition hendrix_domain (c : hendrix_cfg) : Prop :=
  1 <= hendrix_max_useful_life c /\ 0 < hendrix_demand_poisson_mean_a c /\ 0 < hendrix_demand_poisson_mean_b c /\
  0 <= hendrix_substitution_probability c <= 1 /\ 0 < hendrix_max_order_quantity_a c /\ 0 < hendrix_max_order_quantity_b c.
Lemma validate_hendrix_iff c : validate_hendrix c = None <-> hendrix_domain c.
Proof. unfold validate_hendrix, hendrix_domain, Qltb'. split_atoms; finish. Qed.

Lemma existsb_nonpos_false l : existsb (fun n : Q => Qle_bool n (0#1)) l = false <-> Forall (fun n => 0 < n) l.
Proof.
  induction l as [|x l IH]; simpl; [split; [constructor|reflexivity]|].
  rewrite orb_false_iff, IH, Qle_bool_false. split.
  - intros [A B]. now constructor.
  - intros H. inversion H; subst. split; assumption.
Qed.

Definition qlen (l : list Q) : Q := inject_Z (Z.of_nat (List.length l)).
Definition mirjalili_domain (c : mirjalili_cfg) : Prop :=
  0 < mirjalili_max_demand c /\
  qlen (mirjalili_weekday_demand_negbin_n c) == 7 /\ Forall (fun n => 0 < n) (mirjalili_weekday_demand_negbin_n c) /\
  qlen (mirjalili_weekday_demand_negbin_delta c) == 7 /\ Forall (fun n => 0 < n) (mirjalili_weekday_demand_negbin_delta c) /\
  1 <= mirjalili_max_useful_life c /\
  qlen (mirjalili_useful_life_at_arrival_distribution_c_0 c) == mirjalili_max_useful_life c - 1 /\
  qlen (mirjalili_useful_life_at_arrival_distribution_c_1 c) == mirjalili_max_useful_life c - 1 /\
  0 < mirjalili_max_order_quantity c.
Lemma validate_mirjalili_iff c : validate_mirjalili c = None <-> mirjalili_domain c.
Proof.
  unfold validate_mirjalili, mirjalili_domain, Qltb', qlen.
  destruct (existsb (fun n : Q => Qle_bool n (0#1)) (mirjalili_weekday_demand_negbin_n c)) eqn:X1;
  destruct (existsb (fun d : Q => Qle_bool d (0#1)) (mirjalili_weekday_demand_negbin_delta c)) eqn:X2;
  try apply existsb_nonpos_false in X1; try apply existsb_nonpos_false in X2;
  simpl; split_atoms; simpl; split; intros H; try discriminate; try reflexivity;
  repeat match goal with H : _ /\ _ |- _ => destruct H end;
  try (exfalso; lra); try (exfalso; congruence);
  try (repeat split; assumption || lra);
  try (exfalso; match goal with H : Forall _ ?l, X : existsb _ ?l = true |- _ => apply existsb_nonpos_false in H; congruence end).
Qed.

(* ---------- number format derived from the threshold (GENERATED fmt_decimals) *)
Open Scope Z_scope.
Lemma format_wellformed_l k maxd : 0 <= maxd -> 0 <= fmt_decimals k maxd <= maxd.
Proof. intros H. unfold fmt_decimals. lia. Qed.
Lemma format_shows_changes k maxd : - k + 1 <= maxd -> 0 <= - k + 1 -> fmt_decimals k maxd = - k + 1.
Proof. intros. unfold fmt_decimals. lia. Qed.
