(* C05: policy evaluation accuracy and the meaning of policy-iteration termination. *)
From Coq Require Import QArith Qminmax Qabs Qreduction List Arith ZArith Lia Lqa Bool.
From MdpaxV Require Import Model.ListUtil Model.QFun Model.MDP Model.Bellman Model.Solvers
     Proofs.QFunP Proofs.ContractionP Proofs.BellmanP Proofs.C01P Proofs.C02P Proofs.C03P Proofs.LoopP Proofs.C01RunP Proofs.C08P.
Import ListNotations.
Open Scope Q_scope.

Section Eval.
  Variable M : mdp.
  Variables (g eps : Q).

  Fixpoint ev_iter (P : list nat) (n : nat) (V : list Q) : list Q :=
    match n with O => V | S m => sweep_pi M g P (ev_iter P m V) end.

  (* the evaluation loop returns the PRE-update iterate when its test passes, and the last
     iterate when the budget is exhausted *)
  Lemma eval_loop_shape t k P v0 vals ok :
    eval_loop g eps (sweep_pi M g) t k P v0 = (vals, ok) ->
    exists j, (j <= k)%nat /\ vals = ev_iter P j v0 /\
      (forall i, (i < j)%nat -> ~ measure t (ev_iter P (S i) v0) (ev_iter P i v0) < vi_threshold t g eps) /\
      (ok = true -> measure t (sweep_pi M g P vals) vals < vi_threshold t g eps) /\
      (ok = false -> j = k).
  Proof.
    revert v0; induction k as [|k IH]; intros v0 H; simpl in H.
    - injection H as <- <-. exists 0%nat. repeat split; try lia; try discriminate; try (intros; lia).
    - destruct (Qltb (measure t (sweep_pi M g P v0) v0) (vi_threshold t g eps)) eqn:E.
      + injection H as <- <-. exists 0%nat. repeat split; try lia; try discriminate; try (intros; lia).
        intros _. now apply Qltb_true in E.
      + destruct (IH _ H) as [j [Hj [Hv [Hprev [Hok Hno]]]]].
        assert (SH : forall i, ev_iter P i (sweep_pi M g P v0) = ev_iter P (S i) v0).
        { induction i as [|i IHi]; simpl; [reflexivity|]. now rewrite IHi. }
        exists (S j). repeat split.
        * lia.
        * rewrite Hv. apply SH.
        * intros i Hi C. destruct i as [|i].
          -- simpl in C. apply Qltb_true in C. congruence.
          -- apply (Hprev i ltac:(lia)). rewrite !SH. exact C.
        * exact Hok.
        * intros Hf. rewrite (Hno Hf). reflexivity.
  Qed.
End Eval.

Section PI.
  Variable M : mdp.
  Variables (g eps : Q).
  Hypothesis WF : wf M.
  Hypothesis g0 : 0 < g.
  Hypothesis g1 : g < 1.

  (* evaluation under max_diff is accurate whenever it converges within its budget *)
  Lemma eval_maxdiff_accurate k P v0 vals vpi :
    length v0 = nS M -> (forall s, (s < nS M)%nat -> (nth s P 0 < nA M)%nat) ->
    eval_loop g eps (sweep_pi M g) MaxDiff k P v0 = (vals, true) ->
    fixedpt (nS M) (Tpi M g (policy_fun P)) vpi ->
    forall s, (s < nS M)%nat -> Qabs (qnth vals s - vpi s) < eps / g.
  Proof.
    intros HL HP H Hv.
    pose proof (eval_loop_true M g eps g1 MaxDiff k P v0 vals H) as Hm.
    assert (A : fmaxabs (fun s => Tpi M g (policy_fun P) (qnth vals) s - qnth vals s) (nS M) < thr g eps).
    { rewrite measure_maxdiff, maxabs_diff_spec in Hm.
      replace (length (sweep_pi M g P vals)) with (nS M) in Hm by (unfold sweep_pi, tab; now rewrite map_length, seq_length).
      erewrite fmaxabs_ext; [exact Hm|]. intros i Hi. cbv beta.
      rewrite (sweep_pi_spec M g _ _ i Hi). reflexivity. }
    eapply pi_maxdiff_value_bound_l with (g := g) (eps := eps) (v := qnth vals) (pi := policy_fun P); eauto.
  Qed.

  (* one policy backup applies, at every state, the one-step value under that state's own action *)
  Lemma eval_step_is_policy_backup P V s : (s < nS M)%nat ->
    qnth (sweep_pi M g P V) s == fsum (fun e => prb M s (nth s P 0%nat) e * (rew M s (nth s P 0%nat) e + g * qnth V (nxt M s (nth s P 0%nat) e))) (nE M).
  Proof. intros Hs. rewrite sweep_pi_spec by exact Hs. reflexivity. Qed.

  (* termination <=> the improvement step changed no state's action *)
  Lemma pi_stops_iff_stable_l t me reset V0 ckpt freq k st st' conv saves :
    length (pi_pol st) = nS M ->
    S_pi_solve M g eps t me reset V0 ckpt freq k st = (st', conv, saves) ->
    exists j, (j <= k)%nat /\ pi_iter st' = (pi_iter st + j)%nat /\
      (conv = true -> (0 < j)%nat /\ exists prev, pi_pol st' = pi_pol prev /\
           st' = fst (pi_step g eps (policy_of M g) (sweep_pi M g) t me reset V0 prev)) /\
      (conv = false -> j = k /\ forall i, (i < k)%nat ->
           let prev := steps pist (pi_step g eps (policy_of M g) (sweep_pi M g) t me reset V0) i st in
           pi_pol (fst (pi_step g eps (policy_of M g) (sweep_pi M g) t me reset V0 prev)) <> pi_pol prev).
  Proof.
    intros HL0. unfold S_pi_solve, pi_solve, solve_gen. intros H.
    set (stp := pi_step g eps (policy_of M g) (sweep_pi M g) t me reset V0) in *.
    destruct (loop pist stp pi_iter ckpt freq k st []) as [[st1 c1] sv1] eqn:L.
    injection H as <- <- _. unfold pi_finish.
    assert (INV : forall j, length (pi_pol (steps pist stp j st)) = nS M).
    { induction j as [|j IHj]; [exact HL0|]. simpl. unfold stp at 1, pi_step, pi_improve_step.
      destruct (eval_loop _ _ _ _ _ _ _) as [vals ok]. simpl. apply policy_of_length. }
    assert (CH : forall prev, length (pi_pol prev) = nS M ->
              (snd (stp prev) = true <-> pi_pol (fst (stp prev)) = pi_pol prev)).
    { intros prev HLp. unfold stp, pi_step, pi_improve_step.
      destruct (eval_loop g eps (sweep_pi M g) t me (pi_pol (pi_incr prev)) (if reset then V0 else pi_vals (pi_incr prev))) as [vals ok].
      simpl. split.
      - intros E. apply Nat.eqb_eq in E. apply count_changed_zero in E; [exact E|]. now rewrite policy_of_length.
      - intros E. rewrite E. apply Nat.eqb_eq. unfold count_changed.
        clear. induction (pi_pol prev) as [|x l IH]; [reflexivity|]. simpl. rewrite Nat.eqb_refl. simpl. exact IH. }
    destruct (loop_accounting pist stp pi_iter ckpt freq (pi_step_incr g eps _ _ t me reset V0) _ _ _ _ _ _ L)
      as [j [Hj [Hst [Hit [Hprev [Hc Hn]]]]]].
    exists j. split; [exact Hj|]. split; [exact Hit|]. split.
    - intros H. destruct (Hc H) as [Hj0 Hl]. split; [exact Hj0|].
      exists (steps pist stp (j - 1) st). split.
      + rewrite Hst. replace j with (S (j - 1)) at 1 by lia. simpl. apply CH; [apply INV|exact Hl].
      + rewrite Hst. replace j with (S (j - 1)) at 1 by lia. reflexivity.
    - intros H. destruct (Hn H) as [Hjk Hall]. split; [exact Hjk|].
      intros i Hi. cbv zeta. intros E. apply CH in E; [|apply INV].
      specialize (Hall i Hi). congruence.
  Qed.

  (* after any improvement step the stored policy is greedy for the stored values *)
  Lemma pi_policy_greedy_after_step t me reset V0 st :
    let st' := fst (pi_step g eps (policy_of M g) (sweep_pi M g) t me reset V0 st) in
    pi_pol st' = policy_of M g (pi_vals st').
  Proof.
    unfold pi_step, pi_improve_step. destruct (eval_loop _ _ _ _ _ _ _) as [vals ok]. reflexivity.
  Qed.

  (* first policy: the problem's initial policy when there is one, else argmax of expected immediate reward *)
  Lemma pi_first_policy_given ip V0 : pi_pol (S_pi_init M g (Some ip) V0) = ip.
  Proof. reflexivity. Qed.
  Lemma pi_first_policy_default V0 s : (s < nS M)%nat ->
    nth s (pi_pol (S_pi_init M g None V0)) 0%nat =
    fargmax (fun a => Qsa M g (fun _ => 0) s a) (nA M) /\
    forall a, (a < nA M)%nat -> Qsa M g (fun _ => 0) s a == fsum (fun e => prb M s a e * rew M s a e) (nE M).
  Proof.
    intros Hs. split.
    - unfold S_pi_init, pi_init. simpl. rewrite policy_of_nth by exact Hs. unfold greedy.
      apply fargmax_ext. intros a Ha. apply (Qsa_ext M g WF); try assumption.
      intros u Hu. unfold qnth. rewrite nth_repeat. reflexivity.
    - intros a Ha. unfold Qsa. apply fsum_ext. intros e He. ring.
  Qed.

  (* reset option *)
  Lemma pi_reset_start t me V0 st :
    (fst (pi_step g eps (policy_of M g) (sweep_pi M g) t me true V0 st)) =
    (let '(vals, ok) := eval_loop g eps (sweep_pi M g) t me (pi_pol st) V0 in
     {| pi_vals := vals; pi_pol := policy_of M g vals; pi_iter := S (pi_iter st); pi_last_eval_converged := ok |}) /\
    (fst (pi_step g eps (policy_of M g) (sweep_pi M g) t me false V0 st)) =
    (let '(vals, ok) := eval_loop g eps (sweep_pi M g) t me (pi_pol st) (pi_vals st) in
     {| pi_vals := vals; pi_pol := policy_of M g vals; pi_iter := S (pi_iter st); pi_last_eval_converged := ok |}).
  Proof.
    unfold pi_step, pi_improve_step. simpl. split.
    - destruct (eval_loop g eps (sweep_pi M g) t me (pi_pol st) V0); reflexivity.
    - destruct (eval_loop g eps (sweep_pi M g) t me (pi_pol st) (pi_vals st)); reflexivity.
  Qed.
End PI.
