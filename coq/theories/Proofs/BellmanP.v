(* The Bellman optimality / policy backups of a well-formed MDP are one-sided
   gamma-contractions; monotonicity, sup-norm contraction, constant shift. *)
From Coq Require Import QArith Qminmax Qabs Qreduction List Arith Lia Lqa.
From MdpaxV Require Import Model.QFun Model.MDP Model.Bellman Proofs.QFunP Proofs.ContractionP.
Open Scope Q_scope.

Section Bell.
  Variable M : mdp.
  Variable g : Q.
  Hypothesis WF : wf M.
  Hypothesis g0 : 0 <= g.

  Lemma wf_nS : (0 < nS M)%nat. Proof. apply WF. Qed.
  Lemma wf_nA : (0 < nA M)%nat. Proof. apply WF. Qed.
  Lemma wf_nxt s a e : (s < nS M)%nat -> (a < nA M)%nat -> (e < nE M)%nat -> (nxt M s a e < nS M)%nat.
  Proof. intros Hs Ha He. destruct WF as (_ & _ & _ & W & _). now apply W. Qed.
  Lemma wf_prb s a e : (s < nS M)%nat -> (a < nA M)%nat -> (e < nE M)%nat -> 0 <= prb M s a e.
  Proof. intros Hs Ha He. destruct WF as (_ & _ & _ & W & _). now apply W. Qed.
  Lemma wf_sum s a : (s < nS M)%nat -> (a < nA M)%nat -> fsum (prb M s a) (nE M) == 1.
  Proof. intros Hs Ha. destruct WF as (_ & _ & _ & _ & W). now apply W. Qed.

  Lemma Qsa_onesided u v d s a : (s < nS M)%nat -> (a < nA M)%nat ->
    (forall t, (t < nS M)%nat -> u t <= v t + d) ->
    Qsa M g u s a <= Qsa M g v s a + g * d.
  Proof.
    intros Hs Ha H. unfold Qsa.
    assert (E : fsum (fun e => prb M s a e * (rew M s a e + g * v (nxt M s a e)) + (g * d) * prb M s a e) (nE M)
                == fsum (fun e => prb M s a e * (rew M s a e + g * v (nxt M s a e))) (nE M) + g * d).
    { rewrite fsum_plus, fsum_scale, wf_sum by assumption. ring. }
    rewrite <- E. apply fsum_le. intros e He.
    pose proof (wf_prb s a e Hs Ha He) as P. pose proof (H _ (wf_nxt s a e Hs Ha He)) as U.
    set (p := prb M s a e) in *. set (r := rew M s a e). set (x := nxt M s a e) in *.
    assert (0 <= g * (v x + d - u x)) as A1 by (apply Qmult_le_0_compat; lra).
    assert (0 <= p * (g * (v x + d - u x))) as A2 by (apply Qmult_le_0_compat; assumption).
    lra.
  Qed.

  Lemma Qsa_ext u v s a : (s < nS M)%nat -> (a < nA M)%nat ->
    (forall t, (t < nS M)%nat -> u t == v t) -> Qsa M g u s a == Qsa M g v s a.
  Proof.
    intros Hs Ha H. unfold Qsa. apply fsum_ext. intros e He.
    rewrite (H _ (wf_nxt s a e Hs Ha He)). reflexivity.
  Qed.

  Lemma T_onesided : onesided (nS M) g (T M g).
  Proof.
    intros u v d H s Hs. unfold T.
    apply fmax_le_bound; [apply wf_nA|]. intros a Ha.
    eapply Qle_trans; [apply Qsa_onesided; eassumption|].
    pose proof (fmax_ge (Qsa M g v s) (nA M) a Ha). lra.
  Qed.

  Lemma Tpi_onesided pi : (forall s, (s < nS M)%nat -> (pi s < nA M)%nat) -> onesided (nS M) g (Tpi M g pi).
  Proof. intros Hpi u v d H s Hs. unfold Tpi. apply Qsa_onesided; auto. Qed.

  Lemma T_ext u v : (forall t, (t < nS M)%nat -> u t == v t) -> forall s, (s < nS M)%nat -> T M g u s == T M g v s.
  Proof. intros H s Hs. unfold T. apply fmax_ext. intros a Ha. now apply Qsa_ext. Qed.

  (* monotone *)
  Lemma T_monotone u v : (forall t, (t < nS M)%nat -> u t <= v t) -> forall s, (s < nS M)%nat -> T M g u s <= T M g v s.
  Proof.
    intros H s Hs. pose proof (T_onesided u v 0) as X.
    assert (forall t, (t < nS M)%nat -> u t <= v t + 0) as H0 by (intros t Ht; specialize (H t Ht); lra).
    specialize (X H0 s Hs). lra.
  Qed.

  (* sup-norm contraction:  |u - v| <= d  ->  |Tu - Tv| <= g d *)
  Lemma T_contraction u v d : (forall t, (t < nS M)%nat -> Qabs (u t - v t) <= d) ->
    forall s, (s < nS M)%nat -> Qabs (T M g u s - T M g v s) <= g * d.
  Proof.
    intros H s Hs.
    assert (forall t, (t < nS M)%nat -> u t <= v t + d) as H1.
    { intros t Ht. pose proof (H t Ht) as A. apply Qabs_Qle_condition in A. lra. }
    assert (forall t, (t < nS M)%nat -> v t <= u t + d) as H2.
    { intros t Ht. pose proof (H t Ht) as A. apply Qabs_Qle_condition in A. lra. }
    pose proof (T_onesided u v d H1 s Hs). pose proof (T_onesided v u d H2 s Hs).
    apply Qabs_Qle_condition. lra.
  Qed.

  (* constant shift *)
  Lemma T_shift v c : forall s, (s < nS M)%nat -> T M g (fun t => v t + c) s == T M g v s + g * c.
  Proof.
    intros s Hs. apply Qle_antisym.
    - apply (T_onesided (fun t => v t + c) v c); [intros; lra|assumption].
    - pose proof (T_onesided v (fun t => v t + c) (- c)) as X. cbv beta in X.
      assert (forall t, (t < nS M)%nat -> v t <= v t + c + - c) as H0 by (intros; lra).
      specialize (X H0 s Hs). lra.
  Qed.

  (* span contraction: sp(Tu - Tv) <= g * sp(u - v), in bound form *)
  Lemma T_span_contraction u v lo hi :
    (forall t, (t < nS M)%nat -> lo <= u t - v t <= hi) ->
    forall s, (s < nS M)%nat -> g * lo <= T M g u s - T M g v s <= g * hi.
  Proof.
    intros H s Hs.
    assert (forall t, (t < nS M)%nat -> u t <= v t + hi) as H1 by (intros t Ht; specialize (H t Ht); lra).
    assert (forall t, (t < nS M)%nat -> v t <= u t + - lo) as H2 by (intros t Ht; specialize (H t Ht); lra).
    pose proof (T_onesided u v hi H1 s Hs). pose proof (T_onesided v u (- lo) H2 s Hs). lra.
  Qed.

  (* the greedy policy attains the maximum *)
  Lemma greedy_lt v s : (greedy M g v s < nA M)%nat.
  Proof. apply fargmax_lt, wf_nA. Qed.
  Lemma greedy_attains v s : Tpi M g (greedy M g v) v s == T M g v s.
  Proof. unfold Tpi, T, greedy. apply fargmax_max, wf_nA. Qed.
  Lemma Tpi_le_T pi v s : (pi s < nA M)%nat -> Tpi M g pi v s <= T M g v s.
  Proof. intros. unfold Tpi, T. now apply fmax_ge. Qed.
End Bell.
