(* C02: the code-shaped kernel computes exactly the Bellman optimality backup,
   for every layout, every value vector, every gamma; the extracted policy is greedy. *)
From Coq Require Import QArith Qminmax Qabs Qreduction List Arith ZArith Lia Lqa Bool.
From MdpaxV Require Import Model.ListUtil Model.QFun Model.MDP Model.Bellman Model.Batching Model.Kernel
     Proofs.ListUtilP Proofs.QFunP Proofs.C18P Proofs.BellmanP Proofs.ContractionP.
From MdpaxGen Require Import GenBatch.
Import ListNotations.
Open Scope Q_scope.

(* ---------- list sums / dot products vs fsum *)
Lemma qdot_map_seq (f p : nat -> Q) a n :
  qdot (map f (seq a n)) (map p (seq a n)) == fold_right (fun e acc => f e * p e + acc) 0 (seq a n).
Proof. revert a; induction n as [|n IH]; intros a; simpl; [reflexivity|]. rewrite IH. reflexivity. Qed.

Lemma fold_right_sum_app (h : nat -> Q) l1 l2 :
  fold_right (fun e acc => h e + acc) 0 (l1 ++ l2) ==
  fold_right (fun e acc => h e + acc) 0 l1 + fold_right (fun e acc => h e + acc) 0 l2.
Proof. induction l1 as [|x l1 IH]; simpl; [ring|]. rewrite IH. ring. Qed.

Lemma fsum_as_fold (h : nat -> Q) n : fsum h n == fold_right (fun e acc => h e + acc) 0 (seq 0 n).
Proof.
  induction n as [|n IH]; [reflexivity|].
  rewrite seq_S, fold_right_sum_app. simpl. rewrite IH. ring.
Qed.

Lemma map2_map_map {A B C D} (f : B -> C -> D) (r : A -> B) (v : A -> C) l :
  map2 f (map r l) (map v l) = map (fun e => f (r e) (v e)) l.
Proof. induction l as [|x l IH]; simpl; [reflexivity|now rewrite IH]. Qed.

(* ---------- lmax / largmax vs fmax / fargmax *)
Lemma lmax_seq f n : (0 < n)%nat -> lmax (map f (seq 0 n)) == fmax f n.
Proof.
  induction n as [|n IH]; intros Hn; [lia|].
  destruct n as [|n]; [reflexivity|].
  rewrite seq_S, map_app, fmax_S by lia. rewrite <- IH by lia.
  simpl. rewrite fold_left_app. simpl. reflexivity.
Qed.

Lemma Qltb_ext a a' b b' : a == a' -> b == b' -> Qltb a b = Qltb a' b'.
Proof.
  intros Ea Eb. destruct (Qltb a b) eqn:E1, (Qltb a' b') eqn:E2; try reflexivity.
  - apply Qltb_true in E1. rewrite Ea, Eb in E1. apply Qltb_true in E1. congruence.
  - apply Qltb_true in E2. rewrite <- Ea, <- Eb in E2. apply Qltb_true in E2. congruence.
Qed.

Lemma fargmax_ext f h n : (forall i, (i < n)%nat -> f i == h i) -> fargmax f n = fargmax h n.
Proof.
  induction n as [|n IH]; intros H; [reflexivity|].
  destruct n as [|n]; [reflexivity|].
  rewrite (fargmax_S f), (fargmax_S h) by lia. cbv zeta. rewrite <- IH by (intros; apply H; lia).
  rewrite (Qltb_ext _ (h (fargmax f (S n))) _ (h (S n))).
  - reflexivity.
  - apply H. pose proof (fargmax_lt f (S n) ltac:(lia)). lia.
  - apply H. lia.
Qed.

Lemma largmax_state f k :
  fold_left amax_step (map f (seq 1 k)) (f 0%nat, 0%nat, 1%nat) = (f (fargmax f (S k)), fargmax f (S k), S k).
Proof.
  induction k as [|k IH]; [reflexivity|].
  rewrite seq_S, map_app, fold_left_app, IH.
  rewrite (fargmax_S f (S k)) by lia. cbv zeta.
  set (i := fargmax f (S k)).
  cbn [map fold_left Nat.add]. unfold amax_step.
  destruct (Qltb (f i) (f (S k))); reflexivity.
Qed.

Lemma largmax_seq f n : (0 < n)%nat -> largmax (map f (seq 0 n)) = fargmax f n.
Proof.
  intros Hn. destruct n as [|n]; [lia|].
  simpl seq. simpl map. unfold largmax. rewrite largmax_state. reflexivity.
Qed.

Section KernelEq.
  Variable M : mdp.
  Variable g : Q.
  Variable V : list Q.

  Lemma k_sav_eq st a : k_state_action_value M st a (seq 0 (nE M)) g V == q_sa M g V st a.
  Proof.
    unfold k_state_action_value, q_sa, Qsa. rewrite !Qred_correct.
    rewrite map2_map_map, qdot_map_seq, fsum_as_fold.
    generalize (seq 0 (nE M)) as l. induction l as [|e l IH]; simpl; [reflexivity|].
    rewrite IH. ring.
  Qed.

  Lemma k_updated_value_eq st : (0 < nA M)%nat ->
    k_updated_value M st (seq 0 (nA M)) (seq 0 (nE M)) g V == backup M g V st.
  Proof.
    intros HA. unfold k_updated_value, backup. rewrite lmax_seq by assumption.
    apply fmax_ext. intros a _. apply k_sav_eq.
  Qed.

  Lemma k_policy_idx_eq st : (0 < nA M)%nat ->
    k_policy_idx M st (seq 0 (nA M)) (seq 0 (nE M)) g V = greedy_l M g V st.
  Proof.
    intros HA. unfold k_policy_idx, greedy_l. rewrite largmax_seq by assumption.
    apply fargmax_ext. intros a _. apply k_sav_eq.
  Qed.

  Lemma k_scan_const {Y} (f : carry -> list (option nat) -> carry * list Y) c bs :
    (forall b, fst (f c b) = c) -> k_scan f c bs = map (fun b => snd (f c b)) bs.
  Proof.
    intros H. induction bs as [|b bs IH]; simpl; [reflexivity|].
    specialize (H b). destruct (f c b) as [c' ys] eqn:E. simpl in *. subst c'. now rewrite IH.
  Qed.

  Variables (n mb d : Z).
  Hypothesis Hn : n = Z.of_nat (nS M).
  Hypothesis HS : (0 < nS M)%nat.
  Hypothesis HA : (0 < nA M)%nat.
  Hypothesis Hmb : (1 <= mb)%Z.
  Hypothesis Hd : (1 <= d)%Z.

  Let c : carry := (seq 0 (nA M), seq 0 (nE M), g, V).

  Lemma kernel_sweep_unfold padval :
    kernel_sweep M n mb d padval g V =
    map (fun st => k_updated_value M st (seq 0 (nA M)) (seq 0 (nE M)) g V) (seq 0 (nS M)).
  Proof.
    unfold kernel_sweep, slots. fold c.
    set (slotf := fun slot : option nat => match slot with
                    | Some st => k_updated_value M st (seq 0 (nA M)) (seq 0 (nE M)) g V
                    | None => padval end).
    assert (E : map (k_scan (k_value_state_batch M padval) c) (prepare n mb d None (map Some (seq 0 (nS M))))
                = map3 slotf (prepare n mb d None (map Some (seq 0 (nS M))))).
    { unfold map3. apply map_ext. intros dev. rewrite k_scan_const by (intros; reflexivity).
      apply map_ext. intros b. reflexivity. }
    rewrite E.
    rewrite (unbatch_map3_prepare n mb d ltac:(lia) Hmb Hd None (map Some (seq 0 (nS M)))).
    - rewrite map_map. reflexivity.
    - rewrite map_length, seq_length. lia.
  Qed.

  Lemma kernel_sweep_spec padval : Forall2 Qeq (kernel_sweep M n mb d padval g V) (sweep M g V).
  Proof.
    rewrite kernel_sweep_unfold. unfold sweep, tab.
    generalize (seq 0 (nS M)) as l. induction l as [|s l IH]; simpl; constructor; [|exact IH].
    now apply k_updated_value_eq.
  Qed.

  Lemma kernel_policy_spec padidx : kernel_policy M n mb d padidx g V = policy_of M g V.
  Proof.
    unfold kernel_policy, slots, policy_of. fold c.
    set (slotf := fun slot : option nat => match slot with
                    | Some st => k_policy_idx M st (seq 0 (nA M)) (seq 0 (nE M)) g V
                    | None => padidx end).
    assert (E : map (k_scan (k_policy_state_batch M padidx) c) (prepare n mb d None (map Some (seq 0 (nS M))))
                = map3 slotf (prepare n mb d None (map Some (seq 0 (nS M))))).
    { unfold map3. apply map_ext. intros dev. rewrite k_scan_const by (intros; reflexivity).
      apply map_ext. intros b. reflexivity. }
    rewrite E.
    rewrite (unbatch_map3_prepare n mb d ltac:(lia) Hmb Hd None (map Some (seq 0 (nS M)))).
    - rewrite map_map. apply map_ext. intros s. simpl. now apply k_policy_idx_eq.
    - rewrite map_length, seq_length. lia.
  Qed.

  Lemma kernel_eval_spec zidx padval P : Forall2 Qeq (kernel_eval M n mb d zidx padval g P V) (sweep_pi M g P V).
  Proof.
    unfold kernel_eval, slots.
    set (slotf := fun slot : option nat => match slot with
                    | Some st => k_state_action_value M st (nth st P 0%nat) (seq 0 (nE M)) g V
                    | None => padval end).
    change (map (map (map slotf)) (prepare n mb d None (map Some (seq 0 (nS M)))))
      with (map3 slotf (prepare n mb d None (map Some (seq 0 (nS M))))).
    rewrite (unbatch_map3_prepare n mb d ltac:(lia) Hmb Hd None (map Some (seq 0 (nS M)))).
    2:{ rewrite map_length, seq_length. lia. }
    rewrite map_map. unfold sweep_pi, tab.
    generalize (seq 0 (nS M)) as l. induction l as [|s l IH]; simpl; constructor; [|exact IH].
    apply k_sav_eq.
  Qed.
End KernelEq.

(* ---------- the executable list operators are the specification operators *)
Section ListSpec.
  Variable M : mdp.
  Variable g : Q.

  Lemma q_sa_spec V s a : q_sa M g V s a == Qsa M g (qnth V) s a.
  Proof. unfold q_sa. apply Qred_correct. Qed.

  Lemma backup_spec V s : backup M g V s == T M g (qnth V) s.
  Proof. unfold backup, T. apply fmax_ext. intros a _. apply q_sa_spec. Qed.

  Lemma greedy_l_spec V s : greedy_l M g V s = greedy M g (qnth V) s.
  Proof. unfold greedy_l, greedy. apply fargmax_ext. intros a _. apply q_sa_spec. Qed.

  Lemma qnth_tab f n s : (s < n)%nat -> qnth (tab f n) s = f s.
  Proof.
    intros Hs. unfold qnth, tab.
    rewrite (nth_indep _ 0 (f 0%nat)) by (rewrite map_length, seq_length; exact Hs).
    rewrite map_nth, seq_nth by exact Hs. reflexivity.
  Qed.

  Lemma sweep_length V : length (sweep M g V) = nS M.
  Proof. unfold sweep, tab. now rewrite map_length, seq_length. Qed.

  Lemma sweep_spec V s : (s < nS M)%nat -> qnth (sweep M g V) s == T M g (qnth V) s.
  Proof. intros Hs. unfold sweep. rewrite qnth_tab by exact Hs. apply backup_spec. Qed.

  Lemma sweep_pi_spec P V s : (s < nS M)%nat ->
    qnth (sweep_pi M g P V) s == Tpi M g (fun s => nth s P 0%nat) (qnth V) s.
  Proof. intros Hs. unfold sweep_pi. rewrite qnth_tab by exact Hs. apply q_sa_spec. Qed.

  Lemma policy_of_nth V s : (s < nS M)%nat -> nth s (policy_of M g V) 0%nat = greedy M g (qnth V) s.
  Proof.
    intros Hs. unfold policy_of.
    rewrite (nth_indep _ 0%nat (greedy_l M g V 0%nat)) by (rewrite map_length, seq_length; exact Hs).
    rewrite map_nth, seq_nth by exact Hs. apply greedy_l_spec.
  Qed.
End ListSpec.

(* ---------- consequences on value vectors *)
Section Consequences.
  Variable M : mdp.
  Variable g : Q.
  Hypothesis WF : wf M.
  Hypothesis g0 : 0 <= g.

  Lemma sweep_monotone_l U V :
    (forall s, (s < nS M)%nat -> qnth U s <= qnth V s) ->
    forall s, (s < nS M)%nat -> qnth (sweep M g U) s <= qnth (sweep M g V) s.
  Proof.
    intros H s Hs. rewrite !sweep_spec by exact Hs. now apply (T_monotone M g WF g0).
  Qed.

  Lemma sweep_contraction_l U V d :
    (forall s, (s < nS M)%nat -> Qabs (qnth U s - qnth V s) <= d) ->
    forall s, (s < nS M)%nat -> Qabs (qnth (sweep M g U) s - qnth (sweep M g V) s) <= g * d.
  Proof.
    intros H s Hs. rewrite !sweep_spec by exact Hs. now apply (T_contraction M g WF g0).
  Qed.

  Lemma qnth_map_add V c s : (s < length V)%nat -> qnth (map (fun x => x + c) V) s == qnth V s + c.
  Proof.
    intros Hs. unfold qnth. rewrite (nth_indep _ 0 (0 + c)) by (rewrite map_length; exact Hs).
    rewrite (map_nth (fun x => x + c)). reflexivity.
  Qed.

  Lemma sweep_shift_l V c : length V = nS M ->
    forall s, (s < nS M)%nat -> qnth (sweep M g (map (fun x => x + c) V)) s == qnth (sweep M g V) s + g * c.
  Proof.
    intros HL s Hs. rewrite !sweep_spec by exact Hs.
    rewrite <- (T_shift M g WF g0 (qnth V) c s Hs).
    apply (T_ext M g WF). 2: exact Hs. intros t Ht. apply qnth_map_add. lia.
  Qed.

  Lemma policy_greedy_l V s : (s < nS M)%nat ->
    (nth s (policy_of M g V) 0 < nA M)%nat /\
    Qsa M g (qnth V) s (nth s (policy_of M g V) 0%nat) == T M g (qnth V) s /\
    (forall a, (a < nth s (policy_of M g V) 0)%nat -> Qsa M g (qnth V) s a < T M g (qnth V) s).
  Proof.
    intros Hs. rewrite policy_of_nth by exact Hs. pose proof (wf_nA M WF) as HA. repeat split.
    - now apply fargmax_lt.
    - unfold greedy, T. now apply fargmax_max.
    - intros a Ha. unfold greedy in Ha. unfold T. now apply fargmax_first.
  Qed.
End Consequences.

(* ---------- Leibniz versions: Qred makes every expectation canonical, and maxima are
   taken in the same association order, so kernel and specification agree on the nose *)
Lemma lmax_seq_L f n : (0 < n)%nat -> lmax (map f (seq 0 n)) = fmax f n.
Proof.
  induction n as [|n IH]; intros Hn; [lia|].
  destruct n as [|n]; [reflexivity|].
  rewrite seq_S, map_app, fmax_S by lia. rewrite <- IH by lia.
  simpl. rewrite fold_left_app. reflexivity.
Qed.

Lemma fmax_ext_L (f h : nat -> Q) n : (forall i, (i < n)%nat -> f i = h i) -> fmax f n = fmax h n.
Proof.
  induction n as [|n IH]; intros H; [reflexivity|].
  destruct n as [|n]; [simpl; apply H; lia|].
  rewrite (fmax_S f), (fmax_S h) by lia. rewrite IH by (intros; apply H; lia). rewrite (H (S n)) by lia. reflexivity.
Qed.

Section KernelEqL.
  Variable M : mdp.
  Variable g : Q.
  Variable V : list Q.

  Lemma k_sav_eq_L st a : k_state_action_value M st a (seq 0 (nE M)) g V = q_sa M g V st a.
  Proof.
    pose proof (k_sav_eq M g V st a) as E. unfold k_state_action_value, q_sa in *.
    rewrite !Qred_correct in E. now apply Qred_complete.
  Qed.

  Lemma k_updated_value_eq_L st : (0 < nA M)%nat ->
    k_updated_value M st (seq 0 (nA M)) (seq 0 (nE M)) g V = backup M g V st.
  Proof.
    intros HA. unfold k_updated_value, backup. rewrite lmax_seq_L by assumption.
    apply fmax_ext_L. intros a _. apply k_sav_eq_L.
  Qed.

  Variables (n mb d : Z).
  Hypothesis Hn : n = Z.of_nat (nS M).
  Hypothesis HS : (0 < nS M)%nat.
  Hypothesis HA : (0 < nA M)%nat.
  Hypothesis Hmb : (1 <= mb)%Z.
  Hypothesis Hd : (1 <= d)%Z.

  Lemma kernel_sweep_eq_L padval : kernel_sweep M n mb d padval g V = sweep M g V.
  Proof.
    rewrite (kernel_sweep_unfold M g V n mb d Hn HS HA Hmb Hd). unfold sweep, tab.
    apply map_ext. intros s. now apply k_updated_value_eq_L.
  Qed.

  Lemma kernel_eval_eq_L zidx padval P : kernel_eval M n mb d zidx padval g P V = sweep_pi M g P V.
  Proof.
    unfold kernel_eval, slots.
    set (slotf := fun slot : option nat => match slot with
                    | Some st => k_state_action_value M st (nth st P 0%nat) (seq 0 (nE M)) g V
                    | None => padval end).
    change (map (map (map slotf)) (prepare n mb d None (map Some (seq 0 (nS M)))))
      with (map3 slotf (prepare n mb d None (map Some (seq 0 (nS M))))).
    rewrite (unbatch_map3_prepare n mb d ltac:(lia) Hmb Hd None (map Some (seq 0 (nS M)))).
    2:{ rewrite map_length, seq_length. lia. }
    rewrite map_map. unfold sweep_pi, tab. apply map_ext. intros s. apply k_sav_eq_L.
  Qed.
End KernelEqL.
