(* C16: the bin structure of the censored, discretised demand law (De Moor) for EVERY table length. *)
From Coq Require Import QArith List Arith Lia Lqa.
From MdpaxV Require Import Proofs.C13P.
Import ListNotations.
Open Scope Q_scope.

Lemma qdiff_length l : length (qdiff l) = (length l - 1)%nat.
Proof.
  induction l as [|a l IH]; [reflexivity|]. destruct l as [|b l]; [reflexivity|].
  change (qdiff (a :: b :: l)) with ((b - a) :: qdiff (b :: l)). simpl length in *. rewrite IH. lia.
Qed.

Lemma qdiff_nth l : forall k, (S k < length l)%nat -> nth k (qdiff l) 0 = nth (S k) l 0 - nth k l 0.
Proof.
  induction l as [|a l IH]; intros k H; [simpl in H; lia|]. destruct l as [|b l]; [simpl in H; lia|].
  change (qdiff (a :: b :: l)) with ((b - a) :: qdiff (b :: l)). destruct k as [|k]; [reflexivity|].
  change (nth (S k) ((b - a) :: qdiff (b :: l)) 0) with (nth k (qdiff (b :: l)) 0).
  rewrite IH by (simpl in *; lia). reflexivity.
Qed.

Lemma add_last_nth_before l v : forall k, (S k < length l)%nat -> nth k (add_last l v) 0 = nth k l 0.
Proof.
  induction l as [|x l IH]; intros k H; [simpl in H; lia|]. destruct l as [|y l]; [simpl in H; lia|].
  change (add_last (x :: y :: l) v) with (x :: add_last (y :: l) v). destruct k as [|k]; [reflexivity|].
  simpl nth. apply IH. simpl in *. lia.
Qed.

Lemma add_last_nth_last l v : l <> [] -> nth (length l - 1) (add_last l v) 0 = nth (length l - 1) l 0 + v.
Proof.
  induction l as [|x l IH]; intros H; [contradiction|]. destruct l as [|y l]; [reflexivity|].
  change (add_last (x :: y :: l) v) with (x :: add_last (y :: l) v).
  replace (length (x :: y :: l) - 1)%nat with (S (length (y :: l) - 1)) by (simpl; lia).
  simpl nth. apply IH. discriminate.
Qed.

(* entry k < last is cdf[k+1] - cdf[k]; the last entry carries the whole tail: 1 - cdf[last-1] + cdf[0] *)
Theorem censored_pmf_bins cdf : (2 <= length cdf)%nat ->
  length (censored_pmf cdf) = (length cdf - 1)%nat /\
  (forall k, (k + 2 < length cdf)%nat -> nth k (censored_pmf cdf) 0 == nth (S k) cdf 0 - nth k cdf 0) /\
  nth (length cdf - 2) (censored_pmf cdf) 0 == 1 - nth (length cdf - 2) cdf 0 + nth 0 cdf 0.
Proof.
  intros H. unfold censored_pmf.
  assert (NE : qdiff cdf <> []).
  { intros E. pose proof (qdiff_length cdf) as L. rewrite E in L. simpl in L. lia. }
  assert (AL : forall l v, length (add_last l v) = length l).
  { induction l as [|x l IH]; intros v; [reflexivity|]. destruct l as [|y l]; [reflexivity|].
    change (add_last (x :: y :: l) v) with (x :: add_last (y :: l) v).
    change (length (x :: add_last (y :: l) v)) with (S (length (add_last (y :: l) v))). now rewrite IH. }
  split; [now rewrite AL, qdiff_length|]. split.
  - intros k Hk. rewrite add_last_nth_before by (rewrite qdiff_length; lia). rewrite qdiff_nth by lia. reflexivity.
  - pose proof (add_last_nth_last (qdiff cdf) (1 - qsum (qdiff cdf)) NE) as E. rewrite qdiff_length in E.
    replace (length cdf - 1 - 1)%nat with (length cdf - 2)%nat in E by lia. rewrite E.
    rewrite qdiff_nth by lia. rewrite qsum_qdiff by (intros E0; rewrite E0 in H; simpl in H; lia).
    unfold qlast, qhead. replace (S (length cdf - 2)) with (length cdf - 1)%nat by lia.
    assert (LN : last cdf 0 = nth (length cdf - 1) cdf 0).
    { clear. induction cdf as [|a l IH]; [reflexivity|]. destruct l as [|b l]; [reflexivity|].
      change (last (a :: b :: l) 0) with (last (b :: l) 0). rewrite IH.
      replace (length (a :: b :: l) - 1)%nat with (S (length (b :: l) - 1)) by (simpl; lia). reflexivity. }
    rewrite LN. destruct cdf as [|c0 t]; [simpl in H; lia|]. simpl hd. simpl (nth 0 (c0 :: t) 0). ring.
Qed.
