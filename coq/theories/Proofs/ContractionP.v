(* Generic facts about gamma-contractions given in ONE-SIDED form
     (forall s, u s <= v s + d)  ->  (forall s, F u s <= F v s + g*d)
   on functions nat -> Q restricted to [0, n).  Everything the error bounds of
   C01/C04/C05/C06/C07 need follows from this single property. *)
From Coq Require Import QArith Qminmax Qabs List Arith Lia Lqa.
From MdpaxV Require Import Model.QFun Proofs.QFunP.
Open Scope Q_scope.

Section Gen.
  Variable n : nat.
  Variable g : Q.
  Hypothesis npos : (0 < n)%nat.
  Hypothesis g0 : 0 <= g.
  Hypothesis g1 : g < 1.

  Definition vfun := nat -> Q.
  Definition onesided (F : vfun -> vfun) : Prop :=
    forall u v d, (forall s, (s < n)%nat -> u s <= v s + d) ->
                  forall s, (s < n)%nat -> F u s <= F v s + g * d.
  (* weaker: only for non-negative shifts (block Gauss-Seidel operators) *)
  Definition onesided_pos (F : vfun -> vfun) : Prop :=
    forall u v d, 0 <= d -> (forall s, (s < n)%nat -> u s <= v s + d) ->
                  forall s, (s < n)%nat -> F u s <= F v s + g * d.
  Definition fixedpt (F : vfun -> vfun) (w : vfun) : Prop :=
    forall s, (s < n)%nat -> w s == F w s.

  Lemma onesided_is_pos F : onesided F -> onesided_pos F.
  Proof. intros H u v d _. apply H. Qed.

  (* v <= F v + c  ==>  v <= w + c/(1-g) *)
  Lemma sub_fixed_bound F w v c : onesided F -> fixedpt F w ->
    (forall s, (s < n)%nat -> v s <= F v s + c) ->
    forall s, (s < n)%nat -> (1 - g) * (v s - w s) <= c.
  Proof.
    intros HF Hw Hv s Hs.
    set (D := fmax (fun s => v s - w s) n).
    assert (HD : forall s, (s < n)%nat -> v s <= w s + D).
    { intros t Ht. pose proof (fmax_ge (fun s => v s - w s) n t Ht) as G. cbv beta in G. fold D in G. lra. }
    destruct (fmax_attained (fun s => v s - w s) n npos) as [s0 [Hs0 E0]]. fold D in E0. cbv beta in E0.
    pose proof (HF v w D HD s0 Hs0) as H1. pose proof (Hv s0 Hs0) as H2. pose proof (Hw s0 Hs0) as H3.
    assert ((1 - g) * D <= c) as HB by (rewrite E0 in *; lra).
    pose proof (HD s Hs) as H4.
    assert ((1 - g) * (v s - w s) <= (1 - g) * D) by (apply Qmult_le_l; lra).
    lra.
  Qed.

  (* F v - c <= v  ==>  w - c/(1-g) <= v *)
  Lemma super_fixed_bound F w v c : onesided F -> fixedpt F w ->
    (forall s, (s < n)%nat -> F v s <= v s + c) ->
    forall s, (s < n)%nat -> (1 - g) * (w s - v s) <= c.
  Proof.
    intros HF Hw Hv s Hs.
    set (D := fmax (fun s => w s - v s) n).
    assert (HD : forall s, (s < n)%nat -> w s <= v s + D).
    { intros t Ht. pose proof (fmax_ge (fun s => w s - v s) n t Ht) as G. cbv beta in G. fold D in G. lra. }
    destruct (fmax_attained (fun s => w s - v s) n npos) as [s0 [Hs0 E0]]. fold D in E0. cbv beta in E0.
    pose proof (HF w v D HD s0 Hs0) as H1. pose proof (Hv s0 Hs0) as H2. pose proof (Hw s0 Hs0) as H3.
    assert ((1 - g) * D <= c) as HB by (rewrite E0 in *; lra).
    pose proof (HD s Hs) as H4.
    assert ((1 - g) * (w s - v s) <= (1 - g) * D) by (apply Qmult_le_l; lra).
    lra.
  Qed.

  (* the same two bounds for operators that are one-sided only for d >= 0, with c >= 0 *)
  Lemma sub_fixed_bound_pos F w v c : onesided_pos F -> fixedpt F w -> 0 <= c ->
    (forall s, (s < n)%nat -> v s <= F v s + c) ->
    forall s, (s < n)%nat -> (1 - g) * (v s - w s) <= c.
  Proof.
    intros HF Hw Hc Hv s Hs.
    set (D := fmax (fun s => v s - w s) n).
    assert (HD : forall s, (s < n)%nat -> v s <= w s + D).
    { intros t Ht. pose proof (fmax_ge (fun s => v s - w s) n t Ht) as G. cbv beta in G. fold D in G. lra. }
    pose proof (HD s Hs) as H4.
    destruct (Qlt_le_dec D 0) as [Dneg|Dpos].
    - assert ((1 - g) * (v s - w s) <= (1 - g) * D) by (apply Qmult_le_l; lra).
      assert ((1 - g) * D <= 0) by (assert (0 <= (1 - g) * (- D)) by (apply Qmult_le_0_compat; lra); lra).
      lra.
    - destruct (fmax_attained (fun s => v s - w s) n npos) as [s0 [Hs0 E0]]. fold D in E0. cbv beta in E0.
      pose proof (HF v w D Dpos HD s0 Hs0) as H1. pose proof (Hv s0 Hs0) as H2. pose proof (Hw s0 Hs0) as H3.
      assert ((1 - g) * D <= c) as HB by (rewrite E0 in *; lra).
      assert ((1 - g) * (v s - w s) <= (1 - g) * D) by (apply Qmult_le_l; lra).
      lra.
  Qed.

  Lemma super_fixed_bound_pos F w v c : onesided_pos F -> fixedpt F w -> 0 <= c ->
    (forall s, (s < n)%nat -> F v s <= v s + c) ->
    forall s, (s < n)%nat -> (1 - g) * (w s - v s) <= c.
  Proof.
    intros HF Hw Hc Hv s Hs.
    set (D := fmax (fun s => w s - v s) n).
    assert (HD : forall s, (s < n)%nat -> w s <= v s + D).
    { intros t Ht. pose proof (fmax_ge (fun s => w s - v s) n t Ht) as G. cbv beta in G. fold D in G. lra. }
    pose proof (HD s Hs) as H4.
    destruct (Qlt_le_dec D 0) as [Dneg|Dpos].
    - assert ((1 - g) * (w s - v s) <= (1 - g) * D) by (apply Qmult_le_l; lra).
      assert ((1 - g) * D <= 0) by (assert (0 <= (1 - g) * (- D)) by (apply Qmult_le_0_compat; lra); lra).
      lra.
    - destruct (fmax_attained (fun s => w s - v s) n npos) as [s0 [Hs0 E0]]. fold D in E0. cbv beta in E0.
      pose proof (HF w v D Dpos HD s0 Hs0) as H1. pose proof (Hv s0 Hs0) as H2. pose proof (Hw s0 Hs0) as H3.
      assert ((1 - g) * D <= c) as HB by (rewrite E0 in *; lra).
      assert ((1 - g) * (w s - v s) <= (1 - g) * D) by (apply Qmult_le_l; lra).
      lra.
  Qed.

  (* at most one fixed point *)
  Lemma fixedpt_unique F w1 w2 : onesided_pos F -> fixedpt F w1 -> fixedpt F w2 ->
    forall s, (s < n)%nat -> w1 s == w2 s.
  Proof.
    intros HF H1 H2 s Hs.
    assert (A : (1 - g) * (w1 s - w2 s) <= 0).
    { apply (sub_fixed_bound_pos F w2 w1 0 HF H2); [lra| |exact Hs].
      intros t Ht. rewrite <- (H1 t Ht). lra. }
    assert (B : (1 - g) * (w2 s - w1 s) <= 0).
    { apply (sub_fixed_bound_pos F w1 w2 0 HF H1); [lra| |exact Hs].
      intros t Ht. rewrite <- (H2 t Ht). lra. }
    assert (0 < 1 - g) as P by lra.
    assert (w1 s - w2 s <= 0).
    { destruct (Qlt_le_dec 0 (w1 s - w2 s)) as [C|C]; [|exact C].
      assert (0 < (1 - g) * (w1 s - w2 s)) by (apply Qmult_lt_0_compat; assumption). lra. }
    assert (w2 s - w1 s <= 0).
    { destruct (Qlt_le_dec 0 (w2 s - w1 s)) as [C|C]; [|exact C].
      assert (0 < (1 - g) * (w2 s - w1 s)) by (apply Qmult_lt_0_compat; assumption). lra. }
    lra.
  Qed.

  (* |F v - v| <= delta  ==>  |F v - w| <= g*delta/(1-g)   (value error after a stop on max_diff) *)
  Lemma maxdiff_value_bound F w v delta : onesided_pos F -> fixedpt F w -> 0 <= delta ->
    (forall s, (s < n)%nat -> Qabs (F v s - v s) <= delta) ->
    forall s, (s < n)%nat -> (1 - g) * Qabs (F v s - w s) <= g * delta.
  Proof.
    intros HF Hw Hd Hv s Hs.
    assert (Hv1 : forall s, (s < n)%nat -> v s <= F v s + delta).
    { intros t Ht. pose proof (Hv t Ht) as A. apply Qabs_Qle_condition in A. lra. }
    assert (Hv2 : forall s, (s < n)%nat -> F v s <= v s + delta).
    { intros t Ht. pose proof (Hv t Ht) as A. apply Qabs_Qle_condition in A. lra. }
    pose proof (sub_fixed_bound_pos F w v delta HF Hw Hd Hv1) as B1.
    pose proof (super_fixed_bound_pos F w v delta HF Hw Hd Hv2) as B2.
    (* v <= w + d1 and w <= v + d1 with (1-g) d1 = delta *)
    assert (0 < 1 - g) as P by lra.
    set (d1 := delta / (1 - g)).
    assert (Ed1 : (1 - g) * d1 == delta) by (unfold d1; field; lra).
    assert (d1pos : 0 <= d1).
    { destruct (Qlt_le_dec d1 0) as [C|C]; [|exact C].
      assert ((1 - g) * d1 < 0) by (assert (0 < (1 - g) * (- d1)) by (apply Qmult_lt_0_compat; lra); lra). lra. }
    assert (U1 : forall t, (t < n)%nat -> v t <= w t + d1).
    { intros t Ht. pose proof (B1 t Ht) as X.
      destruct (Qlt_le_dec (w t + d1) (v t)) as [C|C]; [|exact C].
      assert (0 < (1 - g) * (v t - w t - d1)) by (apply Qmult_lt_0_compat; lra). lra. }
    assert (U2 : forall t, (t < n)%nat -> w t <= v t + d1).
    { intros t Ht. pose proof (B2 t Ht) as X.
      destruct (Qlt_le_dec (v t + d1) (w t)) as [C|C]; [|exact C].
      assert (0 < (1 - g) * (w t - v t - d1)) by (apply Qmult_lt_0_compat; lra). lra. }
    pose proof (HF v w d1 d1pos U1 s Hs) as X1. pose proof (HF w v d1 d1pos U2 s Hs) as X2.
    pose proof (Hw s Hs) as Ew.
    assert (Qabs (F v s - w s) <= g * d1) as AB by (apply Qabs_Qle_condition; lra).
    assert ((1 - g) * Qabs (F v s - w s) <= (1 - g) * (g * d1)) by (apply Qmult_le_l; lra).
    assert ((1 - g) * (g * d1) == g * delta) as E2 by (rewrite <- Ed1; ring).
    lra.
  Qed.
End Gen.
