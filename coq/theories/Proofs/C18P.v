(* C18: layout arithmetic and lossless round trip, about the GENERATED
   definitions in gen/GenBatch.v. *)
From Coq Require Import List Arith ZArith Bool Lia ZifyBool.
From MdpaxV Require Import Model.ListUtil Model.Batching Proofs.ListUtilP.
From MdpaxGen Require Import GenBatch.
Import ListNotations.
Open Scope Z_scope.

Section Arith.
  Variables (n mb d : Z).
  Hypothesis Hn : 1 <= n.
  Hypothesis Hmb : 1 <= mb.
  Hypothesis Hd : 1 <= d.

  Let spd := bp_states_per_device n mb d.
  Let bs := bp_batch_size n mb d.
  Let nb := bp_n_batches n mb d.
  Let pad := bp_n_pad n mb d.

  Lemma spd_ceil : 1 <= spd /\ n <= d * spd /\ d * (spd - 1) < n.
  Proof.
    unfold spd, bp_states_per_device.
    pose proof (Z.div_mod (n + d - 1) d ltac:(lia)) as E.
    pose proof (Z.mod_pos_bound (n + d - 1) d ltac:(lia)) as B.
    set (q := (n + d - 1) / d) in *. set (r := (n + d - 1) mod d) in *.
    nia.
  Qed.

  Lemma batch_size_bounds : 1 <= bs <= mb.
  Proof.
    pose proof spd_ceil as [S1 _]. unfold bs, bp_batch_size. fold spd.
    destruct (d =? 1) eqn:E; lia.
  Qed.

  Lemma n_batches_pos : 1 <= nb.
  Proof.
    pose proof spd_ceil as [S1 _]. pose proof batch_size_bounds as [B1 _].
    unfold nb, bp_n_batches. fold spd. fold bs.
    destruct (spd <=? bs) eqn:E; [lia|].
    pose proof (Z.div_mod (spd + bs - 1) bs ltac:(lia)) as E2.
    pose proof (Z.mod_pos_bound (spd + bs - 1) bs ltac:(lia)) as B2.
    nia.
  Qed.

  Lemma batches_cover : spd <= nb * bs.
  Proof.
    pose proof spd_ceil as [S1 _]. pose proof batch_size_bounds as [B1 _].
    unfold nb, bp_n_batches. fold spd. fold bs.
    destruct (spd <=? bs) eqn:E; [lia|].
    pose proof (Z.div_mod (spd + bs - 1) bs ltac:(lia)) as E2.
    pose proof (Z.mod_pos_bound (spd + bs - 1) bs ltac:(lia)) as B2.
    nia.
  Qed.

  Lemma pad_nonneg : 0 <= pad.
  Proof.
    pose proof spd_ceil as [S1 [S2 _]]. pose proof batches_cover as C.
    unfold pad, bp_n_pad, bp_total_size. fold bs. fold nb. nia.
  Qed.

  Lemma slots_eq : d * nb * bs = n + pad.
  Proof. unfold pad, bp_n_pad, bp_total_size. fold bs. fold nb. lia. Qed.

  Lemma devices_eq : bp_n_devices n mb d = d.
  Proof. reflexivity. Qed.

  (* padding is strictly less than one device's worth of slots plus ...:
     the last device always holds at least ... (not claimed by C18) *)
End Arith.

Section Lists.
  Variables (n mb d : Z).
  Hypothesis Hn : 1 <= n.
  Hypothesis Hmb : 1 <= mb.
  Hypothesis Hd : 1 <= d.
  Context {T : Type}.
  Variable padrow : T.
  Variable xs : list T.
  Hypothesis Hlen : Z.of_nat (length xs) = n.

  Let bs := Z.to_nat (bp_batch_size n mb d).
  Let nb := Z.to_nat (bp_n_batches n mb d).
  Let dn := Z.to_nat d.
  Let pad := Z.to_nat (bp_n_pad n mb d).

  Lemma pad_list_eq : pad_list n mb d padrow xs = xs ++ repeat padrow pad.
  Proof.
    unfold pad_list, L_pad, bp_pad_cond, bp_pad_after, bp_pad_rows.
    pose proof (pad_nonneg n mb d Hn Hmb Hd) as P. fold pad.
    destruct (bp_n_pad n mb d >? 0) eqn:E; [reflexivity|].
    assert (bp_n_pad n mb d = 0) as Z0 by lia.
    unfold pad. rewrite Z0. simpl. now rewrite app_nil_r.
  Qed.

  Lemma pad_list_length : length (pad_list n mb d padrow xs) = (dn * (nb * bs))%nat.
  Proof.
    rewrite pad_list_eq, app_length, repeat_length.
    pose proof (slots_eq n mb d) as S. pose proof (pad_nonneg n mb d Hn Hmb Hd) as P.
    pose proof (batch_size_bounds n mb d Hn Hmb Hd). pose proof (n_batches_pos n mb d Hn Hmb Hd).
    unfold dn, nb, bs, pad. apply Nat2Z.inj.
    rewrite Nat2Z.inj_add, !Nat2Z.inj_mul, !Z2Nat.id by lia. lia.
  Qed.

  Lemma prepare_eq : prepare n mb d padrow xs = reshape3 dn nb bs (xs ++ repeat padrow pad).
  Proof. unfold prepare, bp_reshape_dims, L_nb, L_bs. now rewrite pad_list_eq. Qed.

  (* slot (i,j,k) holds state (i*nb+j)*bs+k when that is < n, padding otherwise *)
  Lemma prepare_slot i j k dflt :
    (i < dn)%nat -> (j < nb)%nat -> (k < bs)%nat ->
    nth3 (prepare n mb d padrow xs) i j k dflt =
      let s := ((i * nb + j) * bs + k)%nat in
      if (s <? length xs)%nat then nth s xs dflt else padrow.
  Proof.
    intros Hi Hj Hk. rewrite prepare_eq, nth3_reshape3 by assumption. cbv zeta.
    set (s := ((i * nb + j) * bs + k)%nat).
    destruct (Nat.ltb_spec s (length xs)) as [Hlt|Hge].
    - now rewrite app_nth1.
    - rewrite app_nth2 by lia.
      assert (i * nb + j + 1 <= dn * nb)%nat as A1 by nia.
      assert ((i * nb + j + 1) * bs <= dn * nb * bs)%nat as A2 by (apply Nat.mul_le_mono_r; exact A1).
      assert (s < dn * (nb * bs))%nat by (unfold s; lia).
      pose proof pad_list_length as PL. rewrite pad_list_eq, app_length, repeat_length in PL.
      apply nth_repeat_lt. lia.
  Qed.

  Lemma prepare_shape :
    length (prepare n mb d padrow xs) = dn /\
    Forall (fun dev => length dev = nb /\ Forall (fun b => length b = bs) dev)
           (prepare n mb d padrow xs).
  Proof.
    rewrite prepare_eq. unfold reshape3. split.
    - rewrite map_length. apply chunks_length.
    - apply Forall_map.
      pose proof pad_list_length as PL. rewrite pad_list_eq in PL.
      pose proof (chunks_each_length (nb * bs) dn _ PL) as F.
      eapply Forall_impl; [|exact F]. intros ch Hch. split.
      + apply chunks_length.
      + apply chunks_each_length. exact Hch.
  Qed.

  (* un-batching any per-slot result returns one row per state, in order *)
  Lemma unbatch_map3_prepare {R} (f : T -> R) :
    unbatch n mb d (map3 f (prepare n mb d padrow xs)) = map f xs.
  Proof.
    unfold unbatch. rewrite flatten3_map3, prepare_eq, flatten3_reshape3.
    2:{ pose proof pad_list_length as PL. now rewrite pad_list_eq in PL. }
    unfold L_pad, bp_strip_cond, bp_strip_stop.
    pose proof (pad_nonneg n mb d Hn Hmb Hd) as P.
    rewrite map_app, map_repeat.
    destruct (bp_n_pad n mb d >? 0) eqn:E.
    - rewrite app_length, repeat_length, map_length.
      replace (Z.to_nat (Z.of_nat (length xs + pad) - bp_n_pad n mb d)) with (length (map f xs) + 0)%nat.
      2:{ rewrite map_length. unfold pad. lia. }
      rewrite firstn_app_2. simpl. now rewrite app_nil_r.
    - assert (bp_n_pad n mb d = 0) as Z0 by lia. unfold pad. rewrite Z0. simpl.
      now rewrite app_nil_r.
  Qed.

  Lemma unbatch_prepare : unbatch n mb d (prepare n mb d padrow xs) = xs.
  Proof.
    pose proof (unbatch_map3_prepare (fun x => x)) as H.
    unfold map3 in H. rewrite map_id in H.
    replace (map (map (map (fun x : T => x))) (prepare n mb d padrow xs))
      with (prepare n mb d padrow xs) in H; [exact H|].
    symmetry. erewrite map_ext; [apply map_id|].
    intros a. erewrite map_ext; [apply map_id|]. intros b. apply map_id.
  Qed.
End Lists.

(* un-batching ANY array of the batched shape (not only images of prepare) *)
Lemma unbatch_any_shape {R} n mb d (Hn : 1 <= n) (Hmb : 1 <= mb) (Hd : 1 <= d)
      (r : list (list (list R))) :
  length (flatten3 r) = Z.to_nat (n + bp_n_pad n mb d) ->
  length (unbatch n mb d r) = Z.to_nat n /\
  forall s dflt, (s < Z.to_nat n)%nat -> nth s (unbatch n mb d r) dflt = nth s (flatten3 r) dflt.
Proof.
  intros HL. unfold unbatch, L_pad, bp_strip_cond, bp_strip_stop.
  pose proof (pad_nonneg n mb d Hn Hmb Hd) as P.
  destruct (bp_n_pad n mb d >? 0) eqn:E.
  - split.
    + rewrite firstn_length. lia.
    + intros s dflt Hs. rewrite HL.
      replace (Z.to_nat (Z.of_nat (Z.to_nat (n + bp_n_pad n mb d)) - bp_n_pad n mb d)) with (Z.to_nat n) by lia.
      rewrite <- (firstn_skipn (Z.to_nat n) (flatten3 r)) at 2.
      rewrite app_nth1; [reflexivity|]. rewrite firstn_length. lia.
  - assert (bp_n_pad n mb d = 0) as Z0 by lia. rewrite Z0 in HL. split.
    + rewrite HL. lia.
    + reflexivity.
Qed.
