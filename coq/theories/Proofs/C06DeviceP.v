(* C06, the heart: the per-device scan with carried vector, masked scatter and padding rows
   computes exactly the block Gauss-Seidel outputs -- whichever way duplicate scatter indices
   are resolved (pad_wins = true / false). *)
From Coq Require Import QArith Qminmax Qabs Qreduction List Arith ZArith Lia Lqa Bool Permutation.
From MdpaxV Require Import Model.ListUtil Model.QFun Model.MDP Model.Bellman Model.Batching Model.Kernel Model.SemiAsync
     Model.GaussSeidel Proofs.ListUtilP Proofs.QFunP Proofs.BellmanP Proofs.C02P Proofs.C06P.
Import ListNotations.
Open Scope Q_scope.

Section Device.
  Variable M : mdp.
  Hypothesis WF : wf M.
  Variable g : Q.
  Hypothesis g0 : 0 <= g.
  Variables (zidx : nat) (pad_wins : bool) (padval : Q).
  Let n := nS M.

  Definition has_none (b : list (option nat)) : bool := existsb (fun sl => match sl with None => true | Some _ => false end) b.

  (* expected outputs of the scan, at function level *)
  Fixpoint gs_outputs (bs : list (list (option nat))) (f : nat -> Q) : list (list Q) :=
    match bs with
    | [] => []
    | b :: rest => map (fun sl => match sl with Some s => T M g f s | None => padval end) b
                   :: gs_outputs rest (gs_batch M g (reals b) f)
    end.

  (* padding is a suffix: once a batch has a padding row, every later batch is all padding *)
  Fixpoint suffix_ok (bs : list (list (option nat))) : Prop :=
    match bs with
    | [] => True
    | b :: rest => (has_none b = true -> forallb all_none rest = true) /\ suffix_ok rest
    end.

  Definition lleq (a b : list (list Q)) : Prop := Forall2 (Forall2 Qeq) a b.

  Lemma Forall2_Qeq_refl l : Forall2 Qeq l l.
  Proof. induction l; constructor; [reflexivity|assumption]. Qed.
  Lemma lleq_refl l : lleq l l.
  Proof. induction l; constructor; [apply Forall2_Qeq_refl|assumption]. Qed.

  Lemma gs_outputs_all_none bs : forall f, forallb all_none bs = true ->
    gs_outputs bs f = map (map (fun _ => padval)) bs.
  Proof.
    induction bs as [|b bs IH]; intros f H; [reflexivity|].
    simpl in H. apply andb_true_iff in H. destruct H as [H1 H2]. simpl. f_equal.
    - clear - H1. induction b as [|sl b IHb]; [reflexivity|]. simpl in H1. destruct sl; [discriminate|].
      simpl. f_equal. now apply IHb.
    - now apply IH.
  Qed.

  Definition newval (cur : list Q) (sl : option nat) : Q :=
    match sl with
    | Some st => k_updated_value M st (seq 0 (nA M)) (seq 0 (nE M)) g cur
    | None => padval
    end.

  Lemma newval_spec cur f s : (s < n)%nat -> (forall t, (t < n)%nat -> qnth cur t == f t) ->
    newval cur (Some s) == T M g f s.
  Proof.
    intros Hs H. unfold newval. rewrite k_updated_value_eq by apply (wf_nA M WF).
    rewrite backup_spec. now apply (T_ext M g WF).
  Qed.

  (* the real writes of a batch *)
  Definition writes (cur : list Q) (b : list (option nat)) : list (nat * Q) :=
    flat_map (fun sv : option nat * Q => match fst sv with Some st => [(st, snd sv)] | None => [] end)
             (combine b (map (newval cur) b)).
  Lemma writes_spec cur b : writes cur b = map (fun s => (s, newval cur (Some s))) (reals b).
  Proof.
    unfold writes, reals. induction b as [|sl b IH]; [reflexivity|].
    simpl. destruct sl as [s|]; simpl; now rewrite IH.
  Qed.

  Lemma has_none_false_pads cur b : has_none b = false ->
    flat_map (fun slot : option nat => match slot with Some _ => [] | None => [(zidx, qnth cur zidx)] end) b = [].
  Proof.
    induction b as [|sl b IH]; intros H; [reflexivity|]. simpl in H.
    destruct sl; simpl in *; [now apply IH|discriminate].
  Qed.

  Lemma memb_In s l : memb s l = true <-> In s l.
  Proof.
    unfold memb. rewrite existsb_exists. split.
    - intros [x [Hx E]]. apply Nat.eqb_eq in E. now subst.
    - intros H. exists s. split; [exact H|apply Nat.eqb_refl].
  Qed.

  (* one batch without padding: outputs and the carried vector afterwards *)
  Lemma sa_batch_real cur f b : length cur = n ->
    (forall t, (t < n)%nat -> qnth cur t == f t) ->
    has_none b = false -> (forall s, In s (reals b) -> (s < n)%nat) -> NoDup (reals b) ->
    let '(cur', ys) := sa_batch M zidx pad_wins padval g cur b in
    length cur' = n /\ (forall t, (t < n)%nat -> qnth cur' t == gs_batch M g (reals b) f t).
  Proof.
    intros HL HC HN HR ND. unfold sa_batch.
    change (flat_map _ (combine b (map _ b))) with (writes cur b).
    rewrite (has_none_false_pads cur b HN), app_nil_r. simpl app.
    assert (E : (if pad_wins then scatter cur (writes cur b) else scatter cur (writes cur b)) = scatter cur (writes cur b)) by (destruct pad_wins; reflexivity).
    rewrite E. split; [now rewrite scatter_length|].
    intros t Ht. unfold gs_batch. rewrite writes_spec. destruct (memb t (reals b)) eqn:Em.
    - apply memb_In in Em. rewrite (scatter_written cur _ t (newval cur (Some t))).
      + now apply newval_spec.
      + rewrite map_map. simpl. now rewrite map_id.
      + apply in_map_iff. exists t. split; [reflexivity|exact Em].
      + lia.
    - rewrite scatter_untouched; [now apply HC|].
      intros w Hw Ew. apply in_map_iff in Hw. destruct Hw as [s [<- Hs]]. simpl in Ew. subst s.
      apply memb_In in Hs. congruence.
  Qed.

  Lemma sa_batch_outputs cur f b :
    (forall t, (t < n)%nat -> qnth cur t == f t) -> (forall s, In s (reals b) -> (s < n)%nat) ->
    Forall2 Qeq (snd (sa_batch M zidx pad_wins padval g cur b))
                (map (fun sl => match sl with Some s => T M g f s | None => padval end) b).
  Proof.
    intros HC HR. unfold sa_batch. simpl. fold (newval cur).
    induction b as [|sl b IH]; [constructor|]. simpl. constructor.
    - destruct sl as [s|]; [|reflexivity]. apply newval_spec; [|exact HC]. apply HR. simpl. now left.
    - apply IH. intros s Hs. apply HR. unfold reals in *. simpl. destruct sl; [right|]; exact Hs.
  Qed.

  Lemma reals_concat_cons b rest : reals (concat (b :: rest)) = reals b ++ reals (concat rest).
  Proof. unfold reals. simpl. now rewrite flat_map_app. Qed.

  (* the scan of one device = block Gauss-Seidel outputs *)
  Theorem sa_device_is_gs bs : forall cur f, length cur = n ->
    (forall t, (t < n)%nat -> qnth cur t == f t) ->
    suffix_ok bs -> (forall s, In s (reals (concat bs)) -> (s < n)%nat) -> NoDup (reals (concat bs)) ->
    lleq (sa_device M zidx pad_wins padval g cur bs) (gs_outputs bs f).
  Proof.
    induction bs as [|b rest IH]; intros cur f HL HC HS HR ND; [constructor|].
    rewrite reals_concat_cons in HR, ND. destruct HS as [HS1 HS2].
    assert (HRb : forall s, In s (reals b) -> (s < n)%nat) by (intros s Hs; apply HR; apply in_or_app; now left).
    assert (HRr : forall s, In s (reals (concat rest)) -> (s < n)%nat) by (intros s Hs; apply HR; apply in_or_app; now right).
    cbn [sa_device gs_outputs].
    pose proof (sa_batch_outputs cur f b HC HRb) as OUT.
    destruct (has_none b) eqn:HN.
    - (* first batch with padding: everything after it is padding *)
      specialize (HS1 eq_refl).
      destruct (sa_batch M zidx pad_wins padval g cur b) as [cur' ys]. simpl in OUT.
      constructor; [exact OUT|].
      rewrite sa_device_all_none, gs_outputs_all_none by exact HS1. apply lleq_refl.
    - pose proof (sa_batch_real cur f b HL HC HN HRb) as STEP.
      assert (NDb : NoDup (reals b)) by (apply NoDup_app_l in ND; exact ND).
      specialize (STEP NDb).
      destruct (sa_batch M zidx pad_wins padval g cur b) as [cur' ys]. simpl in OUT. destruct STEP as [HL' HC'].
      constructor; [exact OUT|].
      apply IH; try assumption. apply NoDup_app_r in ND. exact ND.
  Qed.
End Device.
