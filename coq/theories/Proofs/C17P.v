(* C17: the explicit matrices describe the same MDP as the functional description. *)
From Coq Require Import QArith Qminmax Qabs Qreduction List Arith Lia Lqa Bool.
From MdpaxV Require Import Model.QFun Model.MDP Model.Bellman Model.Matrices Proofs.QFunP Proofs.BellmanP.
Import ListNotations.
Open Scope Q_scope.

Lemma fsum_swap (f : nat -> nat -> Q) n m :
  fsum (fun i => fsum (fun j => f i j) m) n == fsum (fun j => fsum (fun i => f i j) n) m.
Proof.
  induction n as [|n IH]; simpl.
  - symmetry. apply fsum_zero.
  - rewrite IH, <- fsum_plus. reflexivity.
Qed.

(* sum over s' of an indicator picks the single matching term *)
Lemma fsum_indicator (c : nat -> Q) x n : (x < n)%nat ->
  fsum (fun s' => if Nat.eqb x s' then c s' else 0) n == c x.
Proof.
  induction n as [|n IH]; intros Hx; [lia|]. simpl.
  destruct (Nat.eq_dec x n) as [->|Hne].
  - rewrite Nat.eqb_refl.
    assert (Z0 : fsum (fun s' => if Nat.eqb n s' then c s' else 0) n == 0).
    { rewrite <- (fsum_zero n). apply fsum_ext. intros i Hi.
      destruct (Nat.eqb_spec n i); [lia|reflexivity]. }
    rewrite Z0. ring.
  - rewrite IH by lia. destruct (Nat.eqb_spec x n); [contradiction|]. ring.
Qed.

Section C17.
  Variable M : mdp.
  Hypothesis NXT : forall s a e, (s < nS M)%nat -> (a < nA M)%nat -> (e < nE M)%nat -> (nxt M s a e < nS M)%nat.

  (* regrouping a finite sum by successor *)
  Lemma matrix_expectation a s (v : nat -> Q) : (s < nS M)%nat -> (a < nA M)%nat ->
    fsum (fun s' => Praw M a s s' * v s') (nS M) == fsum (fun e => prb M s a e * v (nxt M s a e)) (nE M).
  Proof.
    intros Hs Ha. unfold Praw.
    assert (E1 : fsum (fun s' => fsum (fun e => if Nat.eqb (nxt M s a e) s' then prb M s a e else 0) (nE M) * v s') (nS M)
              == fsum (fun s' => fsum (fun e => if Nat.eqb (nxt M s a e) s' then prb M s a e * v s' else 0) (nE M)) (nS M)).
    { apply fsum_ext. intros s' _. rewrite <- fsum_scale_r. apply fsum_ext. intros e _.
      destruct (Nat.eqb _ _); ring. }
    rewrite E1, fsum_swap. apply fsum_ext. intros e He.
    apply (fsum_indicator (fun s' => prb M s a e * v s') (nxt M s a e) (nS M)). now apply NXT.
  Qed.

  Lemma rowsum_spec a s : (s < nS M)%nat -> (a < nA M)%nat -> rowsum M a s == fsum (prb M s a) (nE M).
  Proof.
    intros Hs Ha. unfold rowsum.
    rewrite <- (fsum_ext (fun s' => Praw M a s s' * 1) (Praw M a s) (nS M)) by (intros; ring).
    rewrite (matrix_expectation a s (fun _ => 1) Hs Ha). apply fsum_ext. intros; ring.
  Qed.

  (* several events into the same successor accumulate; an entry is the total probability of those events *)
  Lemma P_entry_two_events a s s' : Praw M a s s' == fsum (fun e => if Nat.eqb (nxt M s a e) s' then prb M s a e else 0) (nE M).
  Proof. reflexivity. Qed.

  (* functional backup = matrix backup (raw matrices; for rows that sum to one the normalised ones are equal) *)
  Lemma matrix_backup_agrees_l g v s a : (s < nS M)%nat -> (a < nA M)%nat ->
    Qsa_matrix M (Praw M) (Rexp M) g v s a == Qsa M g v s a.
  Proof.
    intros Hs Ha. unfold Qsa_matrix, Qsa, Rexp. rewrite (matrix_expectation a s v Hs Ha).
    rewrite <- fsum_scale, <- fsum_plus. apply fsum_ext. intros e _. ring.
  Qed.

  (* error decision *)
  Lemma build_error_iff_l tol : (0 < nA M * nS M)%nat ->
    (exists a s, build M tol = BuildError a s) <-> exists i, (i < nA M * nS M)%nat /\ tol < dev_flat M i.
  Proof.
    intros Hpos. unfold build. destruct (Qltb tol (max_deviation M)) eqn:E.
    - apply Qltb_true in E. split.
      + intros _. unfold max_deviation in E. destruct (fmax_attained (dev_flat M) _ Hpos) as [i [Hi Ei]].
        exists i. split; [exact Hi|]. now rewrite <- Ei.
      + intros _. destruct (worst_pair M) as [a s]. eauto.
    - split; [intros [a [s H]]; discriminate|].
      intros [i [Hi Hd]]. exfalso.
      assert (~ tol < max_deviation M) as N by (intros C; apply Qltb_true in C; congruence).
      apply N. unfold max_deviation. eapply Qlt_le_trans; [exact Hd|]. now apply fmax_ge.
  Qed.

  (* the named pair is a worst one, the first in (action, state) row-major order *)
  Lemma build_error_names_worst tol a s : (0 < nS M)%nat -> (0 < nA M)%nat -> build M tol = BuildError a s ->
    let i := fargmax (dev_flat M) (nA M * nS M) in
    (a, s) = ((i / nS M)%nat, (i mod nS M)%nat) /\ dev_flat M i == max_deviation M /\ tol < max_deviation M /\
    (forall j, (j < i)%nat -> dev_flat M j < max_deviation M).
  Proof.
    intros HS HA. unfold build. destruct (Qltb tol (max_deviation M)) eqn:E; [|discriminate].
    unfold worst_pair. intros H. injection H as <- <-. cbv zeta.
    assert (0 < nA M * nS M)%nat as Hpos by nia.
    repeat split.
    - apply fargmax_max. exact Hpos.
    - now apply Qltb_true in E.
    - intros j Hj. apply fargmax_first; assumption.
  Qed.

  (* accepted output: rows sum to one, entries are raw/rowsum *)
  Lemma Pnorm_spec a s s' : 0 < rowsum M a s -> Pnorm M a s s' == Praw M a s s' / rowsum M a s.
  Proof.
    intros H. unfold Pnorm. rewrite Qred_correct.
    destruct (Qltb 0 (rowsum M a s)) eqn:E; [reflexivity|].
    assert (~ 0 < rowsum M a s) as N by (intros C; apply Qltb_true in C; congruence). contradiction.
  Qed.

  Lemma Pnorm_row_sums_to_one a s : 0 < rowsum M a s -> fsum (Pnorm M a s) (nS M) == 1.
  Proof.
    intros H.
    rewrite (fsum_ext (Pnorm M a s) (fun s' => Praw M a s s' * / rowsum M a s) (nS M)) by (intros; now apply Pnorm_spec).
    rewrite fsum_scale_r. fold (rowsum M a s). field. lra.
  Qed.

  Lemma Pnorm_eq_raw_when_row_is_distribution a s s' : rowsum M a s == 1 -> Pnorm M a s s' == Praw M a s s'.
  Proof. intros H. rewrite Pnorm_spec by lra. rewrite H. field. Qed.
End C17.
